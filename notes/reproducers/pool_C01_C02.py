import sys, os, time, threading, multiprocessing, signal
sys.path.insert(0, "/repo")
from windpyutils.parallel.own_proc_pools import *

class Sq(FunctorWorker):
    def __call__(self, x): return x*x

class Fac(FunctorWorkerFactory):
    def __init__(self, q): self.q=q
    def create(self): return Sq(self.q)

def run_with_watchdog(f, sec):
    res = {}
    def target():
        try: res['v'] = f()
        except BaseException as e: res['v'] = f"EXC {type(e).__name__}: {e}"
    th = threading.Thread(target=target, daemon=True); th.start(); th.join(sec)
    return res.get('v', 'HANG')

which = sys.argv[1]
if which == "c01":
    # delayed start of feeder thread: legit schedule
    class Slow(FunctorPool.SendWorkThread):
        def run(self):
            time.sleep(0.3); super().run()
    with FunctorPool([Sq() for _ in range(2)]) as pool:
        pool.SendWorkThread = Slow
        r = run_with_watchdog(lambda: list(pool.imap([1,2,3,4,5], 2)), 10)
        print("C01 first call with delayed feeder:", r)
        time.sleep(0.5)
        print("results queue size after call:", pool._results_queue.qsize(), "_data_cnt", pool._data_cnt)
        del pool.SendWorkThread
        r = run_with_watchdog(lambda: list(pool.imap([10,20,30], 1)), 10)
        print("C03 second call (normal):", r)
    os._exit(0)
if which == "c02":
    def slow_end():
        yield 1; yield 2
        time.sleep(1.0)
    with FunctorPool([Sq() for _ in range(2)]) as pool:
        r = run_with_watchdog(lambda: list(pool.imap(slow_end(), 1)), 8)
        print("C02 slow exhaustion:", r)
    os._exit(0)
if which == "c02b":
    def slow_end():
        yield 1; yield 2
        time.sleep(1.0)
    with FunctorPool([Sq() for _ in range(2)]) as pool:
        r = run_with_watchdog(lambda: list(pool.imap_unordered(slow_end(), 1)), 8)
        print("C02 unordered slow exhaustion:", r)
    os._exit(0)
if which == "c03":
    pool = FactoryFunctorPool(1, Fac(1))
    with pool:
        r1 = run_with_watchdog(lambda: list(pool.imap([3], 1)), 10)
        print("C03 call1:", r1)
        time.sleep(0.5)
        r2 = run_with_watchdog(lambda: list(pool.imap([4,5,6], 1)), 10)
        print("C03 call2:", r2)
        os._exit(0)
