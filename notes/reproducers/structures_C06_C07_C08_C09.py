import sys, signal, traceback
sys.path.insert(0, "/repo")
from windpyutils.structures.lists import DoublyLinkedList
from windpyutils.structures.caches import LRUCache, LFUCache
from windpyutils.structures.sorted import SortedSet, SortedMap

def timeout(sec, f):
    def h(*a): raise TimeoutError()
    signal.signal(signal.SIGALRM, h); signal.alarm(sec)
    try:
        return f()
    except BaseException as e:
        return f"EXC {type(e).__name__}: {e}"
    finally:
        signal.alarm(0)

# C08: len after move
l = DoublyLinkedList([1,2,3,4,5]); l.move_to_front(l.tail); print("C08 len after move_to_front:", len(l), list(l))
l = DoublyLinkedList([1,2,3,4,5]); l.move_to_back(l.head); print("C08 len after move_to_back:", len(l), list(l))
l = DoublyLinkedList([1,2,3,4,5]); l.move_after(l.head, l.tail); print("C08 len after move_after:", len(l), list(l))
# equal payload recursion
l = DoublyLinkedList([0]*3000); nodes=list(l.iter_nodes())
print("C08 move_after equal payloads:", timeout(10, lambda: l.move_after(nodes[2500], nodes[2400])))
l = DoublyLinkedList([0]*5); nodes=list(l.iter_nodes())
print("C08 move_after equal small:", timeout(10, lambda: (l.move_after(nodes[3], nodes[1]), [id(n) for n in l.iter_nodes()]==[id(nodes[i]) for i in (0,1,3,2,4)])))
l = DoublyLinkedList([0]*3000)
print("C08 rotate equal payloads:", timeout(10, lambda: (l.rotate(), len(list(l)))))

# C06 LRU values
c = LRUCache(3); c[1]='a'; c[2]='b'
print("C06 values():", timeout(3, lambda: list(c.values())))
print("C06 items():", timeout(3, lambda: list(c.items())))
print("C06 ==:", timeout(3, lambda: c == {1:'a',2:'b'}))
c = LRUCache(3); c[1]='a'
print("C06 single values():", timeout(3, lambda: list(c.values())))
# C07 LFU
c = LFUCache(3); c[1]='a'; c[1]='b'; print("C07 store existing:", c[1])
c = LFUCache(3); c[1]='a'; c[2]='b'; c[3]='c'
print("C07 values():", timeout(3, lambda: list(c.values())), "keys", list(c))
# C09
print("C09 SortedSet([]):", timeout(3, lambda: list(SortedSet([]))))
print("C09 SortedMap([]):", timeout(3, lambda: list(SortedMap([]))))
print("C09 SortedMap({}):", timeout(3, lambda: list(SortedMap({}))))
print("C09 SortedMap dup pairs:", timeout(3, lambda: list(SortedMap([(1,'a'),(1,'b'),(0,'c')]).items())))
print("C09 SortedSet dup:", timeout(3, lambda: list(SortedSet([3,1,3,2.0,2]))))
s = SortedSet([1,2,3])
print("C09 'a' in set:", timeout(3, lambda: 'a' in s), " remove('a'):", timeout(3, lambda: s.remove('a')), " discard('a')", timeout(3, lambda: s.discard('a')))
m = SortedMap({1:'a'})
print("C09 map['a']:", timeout(3, lambda: m['a']), "'a' in m:", 'a' in m, "get:", m.get('a'), "pop:", timeout(3, lambda: m.pop('a')))
print("C09 SortedSet(iter):", timeout(3, lambda: list(SortedSet(iter([2,1])))))
print("C09 SortedMap(tuple pairs) then setitem:", timeout(3, lambda: (lambda mm: (mm.__setitem__(5,'x'), list(mm.items())))(SortedMap([(2,'a'),(1,'b')]))))
