import sys, itertools, os, tempfile, collections, io
ROOT = sys.argv[1]; sys.path.insert(0, ROOT)
from windpyutils.files import *
from dataclasses import dataclass
fails = collections.Counter(); first = {}
def fail(tag, info): fails[tag] += 1; first.setdefault(tag, info)
D = tempfile.mkdtemp()
def wfile(b, name="src"):
    p = os.path.join(D, name); open(p, "wb").write(b); return p
# ---------- C11: contents over {a, é, \n, \r} up to length 5 ----------
alpha = ["a", "é", "\n", "\r"]
n = 0
for L in range(0, 6):
    for tup in itertools.product(alpha, repeat=L):
        content = "".join(tup); b = content.encode(); p = wfile(b)
        ref = content.split("\n")
        if ref and ref[-1] == "": ref = ref[:-1]      # final '\n' adds none ; note "".split -> [''] -> []
        for cls in (RandomLineAccessFile, MemoryMappedRandomLineAccessFile, MutableRandomLineAccessFile, MutableMemoryMappedRandomLineAccessFile):
            if not b and "Memory" in cls.__name__: continue
            n += 1
            try:
                with cls(p) as f:
                    if len(f) != len(ref): fail("C11:len", (cls.__name__, content, len(f), ref)); continue
                    got = [f[i] for i in range(len(f))]
                    if got != ref: fail("C11:index", (cls.__name__, content, got, ref)); continue
                    if list(f) != ref: fail("C11:iter", (cls.__name__, content, list(f), ref))
                    if ref and (f[-1] != ref[-1] or f[0:2] != ref[0:2] or f[::-1] != ref[::-1] or f[[len(ref)-1, 0]] != [ref[-1], ref[0]]): fail("C11:select", (cls.__name__, content))
                    # interleaving
                    out = []
                    for i, x in enumerate(f):
                        out.append(x)
                        if ref: f[(i * 7) % len(ref)]
                        if i == 0: out2 = list(f)
                    if out != ref or (ref and out2 != ref): fail("C11:interleave", (cls.__name__, content, out, ref))
                    # permuted caller index
                    offs = list(f._lines)
                if len(offs) >= 2:
                    perm = [offs[-1], offs[0]]
                    with cls(p, perm) as g:
                        if [g[0], g[1]] != [ref[-1], ref[0]] or list(g) != [ref[-1], ref[0]] or len(g) != 2: fail("C11:custom_index", (cls.__name__, content))
                    idxp = os.path.join(D, "idx"); open(idxp, "w").write("".join(f"{o}\n" for o in offs))
                    with cls(p, idxp) as g:
                        if list(g) != ref: fail("C11:index_file", (cls.__name__, content))
            except Exception as ex:
                fail("C11:exc", (cls.__name__, content, repr(ex)))
print("C11 cases", n)
# ---------- C12: edit histories vs list ----------
@dataclass
class IR(Record):
    s: str
    @classmethod
    def load(cls, s): return cls(s)
    def save(self): return self.s
def conv(kind, x): return IR(x) if kind == "rec" else x
def unconv(kind, x): return x.s if kind == "rec" else x
ops_alpha = [("set", 0), ("set", -1), ("set", 5), ("del", 0), ("del", 1), ("del", 9), ("ins", 0), ("ins", 1), ("ins", 99), ("ins", -1), ("app",), ("ext",), ("pop",), ("pop", 0), ("pop", 7), ("rem", "l1"), ("rem", "zz"), ("rev",), ("iadd",), ("read",)]
variants = [("plain", MutableRandomLineAccessFile), ("plain", MutableMemoryMappedRandomLineAccessFile), ("rec", MutableRecordFile), ("rec", MutableMemoryMappedRecordFile)]
n = 0
src_bytes = b"l0\nl1\nl2\n"
for L in range(1, 4):
    for ops in itertools.product(ops_alpha, repeat=L):
        for kind, cls in variants:
            n += 1
            p = wfile(src_bytes, "msrc")
            f = cls(p, IR) if kind == "rec" else cls(p)
            ref = ["l0", "l1", "l2"]; c = 0; changed = False
            try:
                with f:
                    if kind == "plain" and f.dirty: fail("C12:dirty0", (cls.__name__,))
                    for op in ops:
                        c += 1; new = f"n{c}"
                        def both(fa, fr):
                            try: ra = fa(); ea = None
                            except Exception as e: ra = None; ea = type(e).__name__
                            try: rr = fr(); er = None
                            except Exception as e: rr = None; er = type(e).__name__
                            return ra, ea, rr, er
                        k = op[0]
                        if k == "set": ra, ea, rr, er = both(lambda: f.__setitem__(op[1], conv(kind, new)), lambda: ref.__setitem__(op[1], new))
                        elif k == "del": ra, ea, rr, er = both(lambda: f.__delitem__(op[1]), lambda: ref.__delitem__(op[1]))
                        elif k == "ins": ra, ea, rr, er = both(lambda: f.insert(op[1], conv(kind, new)), lambda: ref.insert(op[1], new))
                        elif k == "app": ra, ea, rr, er = both(lambda: f.append(conv(kind, new)), lambda: ref.append(new))
                        elif k == "ext": ra, ea, rr, er = both(lambda: f.extend([conv(kind, new), conv(kind, new + "b")]), lambda: ref.extend([new, new + "b"]))
                        elif k == "pop": ra, ea, rr, er = both(lambda: unconv(kind, f.pop(*op[1:])), lambda: ref.pop(*op[1:]))
                        elif k == "rem": ra, ea, rr, er = both(lambda: f.remove(conv(kind, op[1])), lambda: ref.remove(op[1]))
                        elif k == "rev": ra, ea, rr, er = both(lambda: f.reverse(), lambda: ref.reverse())
                        elif k == "iadd":
                            def fa():
                                global f2
                                ff = f; ff += [conv(kind, new)]
                            ra, ea, rr, er = both(fa, lambda: ref.extend([new]))
                        elif k == "read": ra, ea, rr, er = both(lambda: [unconv(kind, x) for x in f[0:2]], lambda: ref[0:2])
                        if ea != er or ra != rr: fail("C12:op:" + k, (cls.__name__, ops, (ra, ea), (rr, er))); break
                        if er is None and k not in ("read",) and not (k == "rev" and len(ref) < 2): changed = True
                        got = [unconv(kind, x) for x in f]
                        if got != ref or len(f) != len(ref) or [unconv(kind, f[i]) for i in range(len(ref))] != ref: fail("C12:state:" + k, (cls.__name__, ops, got, ref)); break
                        if kind == "plain" and changed and not f.dirty: fail("C12:dirty", (cls.__name__, ops))
                    else:
                        for le in ("\n", "\r\n", "\t"):
                            outp = os.path.join(D, "out"); f.save(outp, le)
                            exp = "".join(x + le for x in ref).encode()
                            if open(outp, "rb").read() != exp: fail("C12:save_bytes", (cls.__name__, ops, le, open(outp, "rb").read(), exp))
                            sio = io.StringIO(); f.save(sio, le)
                            if sio.getvalue() != exp.decode(): fail("C12:save_stringio", (cls.__name__, ops, le))
                            if le == "\n" and ref:
                                g = cls(outp, IR) if kind == "rec" else cls(outp)
                                with g:
                                    if [unconv(kind, x) for x in g] != ref: fail("C12:reopen", (cls.__name__, ops, list(g), ref))
                        if open(p, "rb").read() != src_bytes: fail("C12:source_changed", (cls.__name__, ops))
            except Exception as ex:
                fail("C12:exc", (cls.__name__, ops, repr(ex)))
print("C12 histories", n)
# ---------- C13 round trips ----------
@dataclass
class CR(CSVRecord):
    a: int
    s: str
    x: float
    t: str
@dataclass
class TR(TSVRecord):
    a: int
    s: str
    x: float
    t: str
@dataclass
class JR(JsonRecord):
    a: object
    b: object
chars = ["a", ",", "\t", '"', " ", "\\", "é", "'", ";", "0"]
strs = [""] + ["".join(t) for L in (1, 2, 3) for t in itertools.product(chars, repeat=L)]
n = 0
for i, s in enumerate(strs):
    for cls in (CR, TR):
        n += 1
        r = cls(i - 5, s, (i - 3) / 7.0, strs[(i * 31) % len(strs)])
        try:
            sv = r.save()
            if cls.load(sv) != r: fail("C13:csv_roundtrip", (cls.__name__, r, sv))
            body = sv[:-2] if sv.endswith("\r\n") else sv
            if "\n" in body or "\r" in body or not sv.endswith("\r\n"): fail("C13:csv_line", (cls.__name__, r, sv))
        except Exception as ex: fail("C13:csv_exc", (cls.__name__, r, repr(ex)))
jvals = [None, True, False, 0, -7, 10**30, 0.1, -2.5e-300, 1e308, "", "a\nb\r \x00\\\"é", [], {}, [1, [2, {"k": None}]], {"k": {"z": [1.5, "s"]}, "": 0}]
for a in jvals:
    for b in jvals:
        n += 1
        r = JR(a, b); sv = r.save()
        if JR.load(sv) != r or "\n" in sv or "\r" in sv: fail("C13:json", (r, sv))
# record files: edit, save, reopen both variants
for cls in (MutableRecordFile, MutableMemoryMappedRecordFile):
    for rc, recs in ((CR, [CR(1, "x,y", 0.5, ' q"'), CR(2, "", 1.0, "\t")]), (JR, [JR({"k": [1, "\n"]}, None), JR("é", 2.5)])):
        p = wfile(("".join(x.save().rstrip("\r\n") + "\n" for x in recs)).encode(), "recsrc")
        with cls(p, rc) as f:
            if list(f) != recs or f[1] != recs[1] or f[0:2] != recs: fail("C13:recfile_read", (cls.__name__, rc.__name__))
            new = recs[0].__class__(*[getattr(recs[1], fn) for fn in rc.field_names()])
            f.append(new); f[0] = recs[1]; del f[1]; f.insert(0, recs[0]); model = [recs[0], recs[1], new]
            if list(f) != model: fail("C13:recfile_edit", (cls.__name__, rc.__name__, list(f), model))
            outp = os.path.join(D, "recout"); f.save(outp)
        for cls2 in (RecordFile, MemoryMappedRecordFile, MutableRecordFile, MutableMemoryMappedRecordFile):
            with cls2(outp, rc) as g:
                if list(g) != model: fail("C13:recfile_reopen", (cls.__name__, cls2.__name__, rc.__name__, list(g), model))
print("C13 cases", n)
print("FAILS:", dict(fails))
for k, v in first.items(): print("  first", k, "->", str(v)[:400])
import shutil; shutil.rmtree(D)
