import sys, itertools, random, collections
ROOT = sys.argv[1]; sys.path.insert(0, ROOT)
from windpyutils.structures.lists import DoublyLinkedList
from windpyutils.structures.caches import LRUCache, LFUCache
from windpyutils.structures.sorted import SortedSet, SortedMap
rng = random.Random(7)
fails = collections.Counter(); first = {}
def fail(tag, info):
    fails[tag] += 1; first.setdefault(tag, info)
# ---------- C06 LRU vs OrderedDict (MRU first) ----------
def lru_ref_get(od, k):
    v = od[k]; od.move_to_end(k, last=False); return v
def run_lru(cap, ops):
    c = LRUCache(cap); od = collections.OrderedDict()
    for op in ops:
        kind, k, v = op
        try:
            if kind == "set":
                c[k] = v
                if k in od: od[k] = v; od.move_to_end(k, last=False)
                else:
                    if len(od) >= cap: od.popitem(last=True)
                    od[k] = v; od.move_to_end(k, last=False)
            elif kind == "get":
                try: r = c[k]
                except KeyError: r = KeyError
                e = lru_ref_get(od, k) if k in od else KeyError
                if r != e: return ("get", ops, r, e)
            elif kind == "del":
                try: del c[k]; r = None
                except KeyError: r = KeyError
                if k in od: del od[k]; e = None
                else: e = KeyError
                if r != e: return ("del", ops, r, e)
            elif kind == "in":
                r = k in c; e = k in od
                if e: od.move_to_end(k, last=False)   # membership counts as use in this implementation
                if r != e: return ("in", ops, r, e)
            elif kind == "views":
                keys = list(c.keys()); e = list(od.keys())
                if keys != e: return ("keys", ops, keys, e)
                vals = sorted(map(str, c.values())); e = sorted(map(str, od.values()))
                if vals != e: return ("values", ops, vals, e)
                its = sorted(map(str, c.items())); e = sorted(map(str, od.items()))
                if its != e: return ("items", ops, its, e)
                # views use lookups -> order may change; resync reference order to implementation order (allowed: lookups are uses)
                order = list(c); od2 = collections.OrderedDict((kk, od[kk]) for kk in order); od.clear(); od.update(od2)
            elif kind == "pop":
                r = c.pop(k, "dflt"); e = od.pop(k, "dflt")
                if r != e: return ("pop", ops, r, e)
            elif kind == "eq":
                if not (c == dict(od)): return ("eq", ops, dict(c.items()), dict(od))
                order = list(c); od2 = collections.OrderedDict((kk, od[kk]) for kk in order); od.clear(); od.update(od2)
        except Exception as ex:
            return ("exc", ops, repr(ex), None)
        if list(c) != list(od.keys()) or len(c) != len(od) or len(c) > cap: return ("state", ops, list(c), list(od.keys()))
    return None
alphabet = [("set", k, v) for k in "abc" for v in (1, 2)] + [("get", k, None) for k in "abc"] + [("del", k, None) for k in "ab"] + [("in", "a", None), ("views", None, None), ("pop", "a", None), ("eq", None, None)]
n = 0
for cap in (1, 2, 3):
    for L in range(1, 5):
        for ops in itertools.product(alphabet, repeat=L):
            n += 1
            r = run_lru(cap, ops)
            if r: fail("C06:" + r[0], (cap, r))
print("C06 histories", n)
# ---------- C07 LFU vs reference counts ----------
def run_lfu(cap, ops):
    c = LFUCache(cap); val = {}; cnt = {}
    for op in ops:
        kind, k, v = op
        try:
            if kind == "set":
                if k in val: c[k] = v; val[k] = v; cnt[k] += 1
                else:
                    before = dict(cnt); full = len(val) >= cap
                    c[k] = v
                    if full:
                        gone = [x for x in before if x not in c.cache]
                        if len(gone) != 1 or before[gone[0]] != min(before.values()): return ("victim", ops, gone, before)
                        del val[gone[0]]; del cnt[gone[0]]
                    val[k] = v; cnt[k] = 1
            elif kind == "get":
                try: r = c[k]
                except KeyError: r = KeyError
                e = val[k] if k in val else KeyError
                if k in val: cnt[k] += 1
                if r != e: return ("get", ops, r, e)
            elif kind == "del":
                try: del c[k]; r = None
                except KeyError: r = KeyError
                e = None if k in val else KeyError
                if k in val: del val[k]; del cnt[k]
                if r != e: return ("del", ops, r, e)
            elif kind == "views":
                if sorted(c.keys()) != sorted(val): return ("keys", ops, list(c.keys()), val)
                vs = sorted(map(str, c.values()))
                if vs != sorted(map(str, val.values())): return ("values", ops, vs, val)
                for kk in val: cnt[kk] += 1
                its = sorted(map(str, c.items()))
                if its != sorted(map(str, val.items())): return ("items", ops, its, val)
                for kk in val: cnt[kk] += 1
            elif kind == "in":
                r = k in c
                if r != (k in val): return ("in", ops, r, k in val)
                if k in val: cnt[k] += 1
        except Exception as ex:
            return ("exc", ops, repr(ex), None)
        metas = [nd.data.meta for nd in c.list.iter_nodes()]
        if metas != sorted(metas): return ("order", ops, metas, None)
        if {nd.data.key: nd.data.meta for nd in c.list.iter_nodes()} != cnt: return ("counts", ops, {nd.data.key: nd.data.meta for nd in c.list.iter_nodes()}, dict(cnt))
        if len(c) != len(val) or len(c) > cap or sorted(c) != sorted(val): return ("state", ops, list(c), val)
    return None
alphabet = [("set", k, v) for k in "abc" for v in (1, 2)] + [("get", k, None) for k in "abc"] + [("del", "a", None), ("views", None, None), ("in", "b", None)]
n = 0
for cap in (1, 2, 3):
    for L in range(1, 5):
        for ops in itertools.product(alphabet, repeat=L):
            n += 1
            r = run_lfu(cap, ops)
            if r: fail("C07:" + r[0], (cap, r))
print("C07 histories", n)
# ---------- C08 DLL vs list of node ids ----------
def walk_ok(l, ref):
    fw = list(l.iter_nodes())
    if [id(x) for x in fw] != [id(x) for x in ref]: return False
    if len(l) != len(ref): return False
    if (l.head is not (ref[0] if ref else None)) or (l.tail is not (ref[-1] if ref else None)): return False
    for i, nd in enumerate(ref):
        if nd.prev_node is not (ref[i-1] if i > 0 else None): return False
        if nd.next_node is not (ref[i+1] if i < len(ref)-1 else None): return False
    return True
def run_dll(ops, payload):
    l = DoublyLinkedList(); ref = []; c = 0
    for op in ops:
        kind = op[0]
        try:
            if kind == "append": ref.append(l.append(payload(c))); c += 1
            elif kind == "prepend": ref.insert(0, l.prepend(payload(c))); c += 1
            elif kind == "extend":
                l.extend([payload(c), payload(c+1)]); c += 2; ref = list(l.iter_nodes())[:len(ref)] + list(l.iter_nodes())[len(ref):]
            elif kind == "pre_extend":
                old = list(ref); l.pre_extend([payload(c), payload(c+1)]); c += 2
                new = list(l.iter_nodes());
                if [id(x) for x in new[2:]] != [id(x) for x in old]: return ("pre_extend", ops)
                ref = new
            elif kind == "pop_back":
                if ref: e = ref.pop().data; r = l.pop_back()
                else:
                    try: l.pop_back(); return ("pop_back_noexc", ops)
                    except IndexError: continue
                if r is not e and r != e: return ("pop_back", ops)
            elif kind == "pop_front":
                if ref: e = ref.pop(0).data; r = l.pop_front()
                else:
                    try: l.pop_front(); return ("pop_front_noexc", ops)
                    except IndexError: continue
                if r is not e and r != e: return ("pop_front", ops)
            elif kind == "rotate":
                l.rotate(op[1])
                if len(ref) > 1:
                    if op[1]: ref.append(ref.pop(0))
                    else: ref.insert(0, ref.pop())
            else:
                if not ref: continue
                i = op[1] % len(ref); nd = ref[i]
                if kind == "remove": l.remove(nd); ref.pop(i)
                elif kind == "mtf": l.move_to_front(nd); ref.pop(i); ref.insert(0, nd)
                elif kind == "mtb": l.move_to_back(nd); ref.pop(i); ref.append(nd)
                elif kind == "mafter":
                    j = op[2] % len(ref); af = ref[j]; l.move_after(nd, af)
                    if nd is not af: ref.pop(i); ref.insert(ref.index(af) + 1, nd)
        except Exception as ex:
            return ("exc:" + type(ex).__name__, ops)
        if not walk_ok(l, ref): return ("state:" + kind, ops)
    return None
alphabet = [("append",), ("prepend",), ("extend",), ("pre_extend",), ("pop_back",), ("pop_front",), ("rotate", True), ("rotate", False)] + [(k, i) for k in ("remove", "mtf", "mtb") for i in range(3)] + [("mafter", i, j) for i in range(3) for j in range(3)]
n = 0
for L in range(1, 5):
    for ops in itertools.product(alphabet, repeat=L):
        n += 1
        for payload in (lambda c: 0, lambda c: c):
            r = run_dll(ops, payload)
            if r: fail("C08:" + r[0], r)
print("C08 histories", n)
# ---------- C09 ----------
vals = [0, 1, 1.0, 2.5, -1]
n = 0
for L in range(0, 4):
    for init in itertools.product(vals, repeat=L):
        n += 1
        try:
            s = SortedSet(list(init)); ref = set(init)
            if list(s) != sorted(ref) or len(s) != len(ref): fail("C09:set_init", init)
        except Exception as ex: fail("C09:set_init_exc", (init, repr(ex)))
        try:
            pairs = [(k, i) for i, k in enumerate(init)]
            m = SortedMap(pairs); ref = dict(pairs)
            if list(m.items()) != sorted(ref.items()) or len(m) != len(ref): fail("C09:map_init", (pairs, list(m.items())))
            m = SortedMap(dict(pairs))
            if list(m.items()) != sorted(ref.items()): fail("C09:map_init_mapping", pairs)
        except Exception as ex: fail("C09:map_init_exc", (init, repr(ex)))
opsS = [(o, v) for o in ("add", "discard", "remove", "in") for v in (0, 1, 1.0, 2.5)] + [("pop", None), ("in", "x"), ("remove", "x")]
for L in range(1, 5):
    for ops in itertools.product(opsS, repeat=L):
        n += 1
        s = SortedSet([1, 2.5]); ref = {1, 2.5}
        for o, v in ops:
            try:
                if o == "add": s.add(v); ref.add(v)
                elif o == "discard": s.discard(v); ref.discard(v)
                elif o == "remove":
                    try: s.remove(v); r = None
                    except KeyError: r = KeyError
                    try: ref.remove(v); e = None
                    except KeyError: e = KeyError
                    if r != e: fail("C09:set_remove", ops)
                elif o == "in":
                    if (v in s) != (v in ref): fail("C09:set_in", ops)
                elif o == "pop":
                    try: r = s.pop(); ref.discard(r)
                    except KeyError: r = KeyError
                    if (r is KeyError) != (len(ref) == 0 and r is KeyError): fail("C09:set_pop", ops)
            except Exception as ex: fail("C09:set_exc", (ops, repr(ex))); break
            if list(s) != sorted(ref) or len(s) != len(ref): fail("C09:set_state", ops); break
opsM = [("set", k, v) for k in (0, 1, 1.0, 2.5) for v in ("p", "q")] + [("del", k, None) for k in (0, 1, 2.5)] + [("get", k, None) for k in (1, 2.5, "x")] + [("pop", 1, None), ("setdefault", 0, "d"), ("update", None, None), ("in", "x", None)]
for L in range(1, 4):
    for ops in itertools.product(opsM, repeat=L):
        n += 1
        m = SortedMap({1: "a", 2.5: "b"}); ref = {1: "a", 2.5: "b"}
        for o, k, v in ops:
            try:
                if o == "set": m[k] = v; ref[k] = v
                elif o == "del":
                    try: del m[k]; r = None
                    except KeyError: r = KeyError
                    try: del ref[k]; e = None
                    except KeyError: e = KeyError
                    if r != e: fail("C09:map_del", ops)
                elif o == "get":
                    try: r = m[k]
                    except KeyError: r = KeyError
                    e = ref.get(k, KeyError)
                    if r != e or m.get(k, "zz") != ref.get(k, "zz"): fail("C09:map_get", ops)
                elif o == "pop":
                    if m.pop(k, "zz") != ref.pop(k, "zz"): fail("C09:map_pop", ops)
                elif o == "setdefault":
                    if m.setdefault(k, v) != ref.setdefault(k, v): fail("C09:map_setdefault", ops)
                elif o == "update": m.update({0: "u", 3: "w"}); ref.update({0: "u", 3: "w"})
                elif o == "in":
                    if (k in m) != (k in ref): fail("C09:map_in", ops)
            except Exception as ex: fail("C09:map_exc", (ops, repr(ex))); break
            if list(m.items()) != sorted(ref.items()) or len(m) != len(ref): fail("C09:map_state", (ops, list(m.items()), sorted(ref.items()))); break
print("C09 cases", n)
print("FAILS:", dict(fails))
for k, v in first.items(): print("  first", k, "->", str(v)[:300])
