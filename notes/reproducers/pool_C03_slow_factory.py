import sys, os, time, threading
sys.path.insert(0, "/repo")
from windpyutils.parallel.own_proc_pools import *
class Sq(FunctorWorker):
    def __call__(self, x): return x*x
class Fac(FunctorWorkerFactory):
    def __init__(self, q, delay=0.0): self.q=q; self.delay=delay; self.n=0
    def create(self):
        self.n+=1
        if self.n>1: time.sleep(self.delay)
        return Sq(self.q)
def run_with_watchdog(f, sec):
    res = {}
    def target():
        try: res['v'] = f()
        except BaseException as e: res['v'] = f"EXC {type(e).__name__}: {e}"
    th = threading.Thread(target=target, daemon=True); th.start(); th.join(sec)
    return res.get('v', 'HANG')
pool = FactoryFunctorPool(1, Fac(1, 0.5))
with pool:
    r1 = run_with_watchdog(lambda: list(pool.imap([3,4], 1)), 10)
    print("C03 call1:", r1, flush=True)
    time.sleep(1.5)
    r2 = run_with_watchdog(lambda: list(pool.imap([4,5,6], 1)), 10)
    print("C03 call2:", r2, flush=True)
    os._exit(0)
