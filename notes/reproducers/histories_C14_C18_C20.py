import sys, itertools, os, tempfile, collections, shutil, multiprocessing, time, random
ROOT = sys.argv[1]; sys.path.insert(0, ROOT)
from windpyutils.parallel.storage import TextFileStorage
from windpyutils.files import TmpPool, FilePool, RandomLineAccessFile, MemoryMappedRandomLineAccessFile, MapAccessFile
fails = collections.Counter(); first = {}
def fail(tag, info): fails[tag] += 1; first.setdefault(tag, info)
# ---------- C14 sequential histories ----------
n = 0
for presize in (None, 3):
    for L in range(0, 5):
        for ids in itertools.product(range(0, 5), repeat=L):
            n += 1
            d = tempfile.mkdtemp(); s = TextFileStorage(d, number_of_data=presize); ref = {}
            try:
                with s:
                    for k, g in enumerate(ids):
                        txt = f"t{k}-{g}" if k % 2 else ""
                        if txt == "": txt = f"é{k}"
                        try: s[g] = txt; r = None
                        except ValueError: r = ValueError
                        e = ValueError if g in ref else None
                        if e is None: ref[g] = txt
                        if r != e: fail("C14:dup", ids)
                        if len(s) != len(ref): fail("C14:len", ids)
                        if s.is_contiguous() != (sorted(ref) == list(range(len(ref)))): fail("C14:contig", (ids, presize))
                        for q in range(0, 6):
                            try: got = s[q]
                            except IndexError: got = IndexError
                            if got != ref.get(q, IndexError): fail("C14:get", (ids, q, got))
                        if list(s) != [ref[x] for x in sorted(ref)]: fail("C14:iter", (ids, presize, list(s)))
                s.flush()
                if len(s) != 0 or os.listdir(d) or list(s) != [] or not s.is_contiguous(): fail("C14:flush", ids)
            except Exception as ex: fail("C14:exc", (ids, repr(ex)))
            shutil.rmtree(d)
print("C14 sequential histories", n)
# ---------- C14 concurrent: writers + reader processes ----------
def writer(s, ids, barrier):
    with s:
        barrier.wait()
        for g in ids: s[g] = f"text-{g}-" + "x" * (g % 17)
def reader(s, nids, out, barrier, stop):
    bad = []
    barrier.wait()
    while not stop.is_set():
        for g in range(nids):
            try: r = s[g]
            except IndexError: continue
            if r != f"text-{g}-" + "x" * (g % 17): bad.append((g, r))
    s.close(); out.put(bad[:5])
if __name__ == "__main__":
    for rep in range(3):
        d = tempfile.mkdtemp(); s = TextFileStorage(d); NW, NR, PER = 3, 2, 400
        ids = list(range(NW * PER)); random.Random(rep).shuffle(ids)
        barrier = multiprocessing.Barrier(NW + NR); stop = multiprocessing.Event(); out = multiprocessing.Queue()
        ws = [multiprocessing.Process(target=writer, args=(s, ids[i::NW], barrier)) for i in range(NW)]
        rs = [multiprocessing.Process(target=reader, args=(s, NW * PER, out, barrier, stop)) for _ in range(NR)]
        for p in ws + rs: p.start()
        for p in ws: p.join()
        stop.set(); bads = [out.get(timeout=30) for _ in rs]
        for p in rs: p.join()
        if any(bads): fail("C14:concurrent_read", bads)
        if len(s) != NW * PER or not s.is_contiguous() or list(s) != [f"text-{g}-" + "x" * (g % 17) for g in range(NW * PER)]: fail("C14:concurrent_final", rep)
        s.close(); s.flush(); shutil.rmtree(d)
    print("C14 concurrent done")
    # ---------- C18: forked readers ----------
    d = tempfile.mkdtemp(); p = os.path.join(d, "f.txt"); lines = [f"line-{i}-" + "y" * (i % 13) for i in range(500)]
    open(p, "w").write("".join(x + "\n" for x in lines))
    def child(f, seed, out, kind):
        rng = random.Random(seed); bad = 0
        for _ in range(3000):
            i = rng.randrange(500)
            r = f[i] if kind != "map" else f[i].rstrip("\n")
            if r != lines[i]: bad += 1
        out.put(bad)
    for kind, mk in (("buf", lambda: RandomLineAccessFile(p)), ("mmap", lambda: MemoryMappedRandomLineAccessFile(p)), ("map", None)):
        if kind == "map":
            with RandomLineAccessFile(p) as t: offs = list(t._lines)
            f = MapAccessFile(p, {i: o for i, o in enumerate(offs)})
        else: f = mk()
        with f:
            f[3]
            out = multiprocessing.Queue(); cs = [multiprocessing.Process(target=child, args=(f, sd, out, kind)) for sd in range(4)]
            for c in cs: c.start()
            rng = random.Random(99); bad = 0
            for _ in range(3000):
                i = rng.randrange(500); r = f[i] if kind != "map" else f[i].rstrip("\n")
                if r != lines[i]: bad += 1
            bads = [out.get(timeout=60) for _ in cs] + [bad]
            for c in cs: c.join()
            if any(bads): fail("C18:" + kind, bads)
    print("C18 done")
    shutil.rmtree(d)
    # ---------- C20 histories ----------
    n = 0
    for L in range(0, 6):
        for ops in itertools.product(["c", "r0", "r1", "f", "x"], repeat=L):
            n += 1
            d = tempfile.mkdtemp(); model = []; allp = []
            try:
                try:
                    with TmpPool(d) as pool:
                        for o in ops:
                            if o == "c":
                                q = pool.create()
                                if q in allp or not os.path.isfile(q): fail("C20:create", ops)
                                model.append(q); allp.append(q)
                            elif o in ("r0", "r1") and len(model) > int(o[1]): pool.remove(model.pop(int(o[1])))
                            elif o == "f": pool.flush(); model = []
                            elif o == "x": raise ZeroDivisionError()
                            if [pool[i] for i in range(len(pool))] != model or sorted(os.listdir(d)) != sorted(os.path.basename(q) for q in model): fail("C20:state", ops)
                except ZeroDivisionError: pass
                if os.listdir(d): fail("C20:left_behind", ops)
            except Exception as ex: fail("C20:exc", (ops, repr(ex)))
            shutil.rmtree(d)
    print("C20 histories", n)
    print("FAILS:", dict(fails))
    for k, v in first.items(): print("  first", k, "->", str(v)[:300])
