# generic sequence encoding as the engine would emit it: value = (len, array); every list operation introduces a fresh pair + a definitional axiom
from z3 import *
import time
def check(name, hyps, goal, to=20000):
    sv = Solver(); sv.set("timeout", to); sv.add(hyps); sv.add(Not(goal))
    t=time.time(); r = sv.check(); print(f"{name}: {'PROVED' if r==unsat else r} {time.time()-t:.2f}s"); return r
cnt=[0]
class Seq:
    def __init__(s, sort, name=None):
        cnt[0]+=1; nm = name or f"s{cnt[0]}"; s.sort = sort; s.n = Int(nm+"_len"); s.a = Array(nm+"_arr", IntSort(), sort); s.ax = [s.n >= 0]
def insert(s, i, x):
    r = Seq(s.sort); j = Int('j'); r.ax = s.ax + [r.n == s.n + 1, ForAll([j], r.a[j] == If(j < i, s.a[j], If(j == i, x, s.a[j-1])), patterns=[r.a[j]])]; return r
def delete(s, i):
    r = Seq(s.sort); j = Int('j'); r.ax = s.ax + [r.n == s.n - 1, ForAll([j], r.a[j] == If(j < i, s.a[j], s.a[j+1]), patterns=[r.a[j]])]; return r
def slice_(s, lo, hi):   # 0<=lo<=hi<=len assumed by caller's VC
    r = Seq(s.sort); j = Int('j'); r.ax = s.ax + [r.n == hi - lo, ForAll([j], r.a[j] == s.a[lo + j], patterns=[r.a[j]])]; return r
def seq_eq(a, b):
    j = Int('j'); return And(a.n == b.n, ForAll([j], Implies(And(0 <= j, j < a.n), a.a[j] == b.a[j])))
def sorted_strict(s):
    i, j = Ints('i j'); return ForAll([i, j], Implies(And(0 <= i, i < j, j < s.n), s.a[i] < s.a[j]), patterns=[MultiPattern(s.a[i], s.a[j])])
# ---------------- SortedSet.add / discard / insertions_index ----------------
V = Seq(RealSort(), "values"); x = Real('x'); r = Int('r'); j = Int('j')
bis = And(0 <= r, r <= V.n, ForAll([j], Implies(And(0 <= j, j < r), V.a[j] < x), patterns=[V.a[j]]), ForAll([j], Implies(And(r <= j, j < V.n), V.a[j] >= x), patterns=[V.a[j]]))
pre = And(*V.ax, sorted_strict(V), bis)
# insertions_index: try: on_index = values[r]; if on_index == x: return r, True ; except IndexError: pass ; return r, False
already = And(r < V.n, V.a[r] == x)
w = Int('w')
check("insertions_index: flag <=> x present", pre, already == Exists([w], And(0 <= w, w < V.n, V.a[w] == x)))
V2 = insert(V, r, x)
check("add(new): stays strictly sorted", And(pre, Not(already), *V2.ax), sorted_strict(V2))
v = Real('v'); w2 = Int('w2')
mem = lambda S, v, wn: Exists([wn], And(0 <= wn, wn < S.n, S.a[wn] == v))
check("add(new): view == old ∪ {x}  (=>)", And(pre, Not(already), *V2.ax, mem(V2, v, w)), Or(v == x, mem(V, v, w2)))
# (<=) needs a witness shift: element at old index k is at k or k+1
k = Int('k')
check("add(new): view == old ∪ {x}  (<=)", And(pre, Not(already), *V2.ax, 0 <= k, k < V.n), And(V2.a[If(k < r, k, k + 1)] == V.a[k], V2.a[r] == x, 0 <= r, r < V2.n))
V3 = delete(V, r)
check("discard(present): stays sorted", And(pre, already, *V3.ax), sorted_strict(V3))
check("discard(present): x gone", And(pre, already, *V3.ax, 0 <= k, k < V3.n), V3.a[k] != x)
check("GUARD", And(pre, Not(already), *V2.ax, V.n == 2), BoolVal(False), 5000)
r2 = Int('r2')   # mutant: bisect_right contract
bisR = And(0 <= r2, r2 <= V.n, ForAll([j], Implies(And(0 <= j, j < r2), V.a[j] <= x), patterns=[V.a[j]]), ForAll([j], Implies(And(r2 <= j, j < V.n), V.a[j] > x), patterns=[V.a[j]]))
alreadyR = And(r2 < V.n, V.a[r2] == x); V4 = insert(V, r2, x)
check("MUTANT bisect_right: add keeps strict order EXPECT FAIL", And(*V.ax, sorted_strict(V), bisR, Not(alreadyR), *V4.ax), sorted_strict(V4), 8000)
# ---------------- search_sub_seq loop ----------------
T = DeclareSort('T'); s1 = Seq(T, "s1"); s2 = Seq(T, "s2"); off = Int('off')
match = Function('match', IntSort(), BoolSort())      # spec: window at offset equals s1
t = Int('t'); wit = Function('mis', IntSort(), IntSort())
spec = And(ForAll([off], Implies(match(off), ForAll([t], Implies(And(0 <= t, t < s1.n), s2.a[off + t] == s1.a[t]))), patterns=[match(off)]),
           ForAll([off], Implies(Not(match(off)), And(0 <= wit(off), wit(off) < s1.n, s2.a[off + wit(off)] != s1.a[wit(off)])), patterns=[match(off)]))
sl = slice_(s2, off, off + s1.n)
# code: if s1 == s2[offset:end_offset]  (list equality = same length + elementwise)
check("slice compare <=> match(offset)", And(*s1.ax, *s2.ax, spec, 0 <= off, off + s1.n <= s2.n, *sl.ax), seq_eq(s1, sl) == match(off))
# res invariant: res lists exactly matching offsets < off ascending : rlen, R array of offsets; count function cm(o) = #matches below o
cm = Function('cm', IntSort(), IntSort()); R = Seq(IntSort(), "res")
cmdef = And(cm(0) == 0, ForAll([off], Implies(off >= 0, cm(off + 1) == cm(off) + If(match(off), 1, 0)), patterns=[cm(off)]))
nth = Function('nth', IntSort(), IntSort())   # nth match offset
inv = lambda R, o: And(R.n == cm(o), ForAll([j], Implies(And(0 <= j, j < R.n), And(R.a[j] == nth(j), 0 <= nth(j), nth(j) < o, match(nth(j)), cm(nth(j)) == j)), patterns=[R.a[j]]))
o = Int('o'); R1 = Seq(IntSort(), "res1"); R1.ax = [R1.n == R.n + 1, R1.a == Store(R.a, R.n, o)]
check("search loop step (match -> append)", And(*R.ax, cmdef, inv(R, o), o >= 0, match(o), *R1.ax, nth(R.n) == o), inv(R1, o + 1))
check("search loop step (no match)", And(*R.ax, cmdef, inv(R, o), o >= 0, Not(match(o))), inv(R, o + 1))
