# throwaway: RandomLineAccessFile._index_file loop + _read_line against the byte-level environment model
from z3 import *
import time
def check(name, hyps, goal, to=20000):
    sv = Solver(); sv.set("timeout", to); sv.add(hyps); sv.add(Not(goal))
    t=time.time(); r = sv.check(); print(f"{name}: {'PROVED' if r==unsat else r} {time.time()-t:.2f}s"); return r
AI = ArraySort(IntSort(), IntSort())
B = Const('B', AI); BL = Int('BL')
nl = Function('nl', IntSort(), IntSort())          # first index >= p holding byte 10, or BL
ls = Function('lstart', IntSort(), IntSort())       # definitional: ls(0)=0, ls(i+1)=min(nl(ls(i))+1, BL)
p, q, i = Ints('p q i')
env = And(BL >= 0,
  ForAll([p], Implies(And(0 <= p, p <= BL), And(p <= nl(p), nl(p) <= BL, Implies(nl(p) < BL, B[nl(p)] == 10))), patterns=[nl(p)]),
  ForAll([p, q], Implies(And(0 <= p, p <= q, q < nl(p)), B[q] != 10), patterns=[MultiPattern(nl(p), B[q])]),
  ls(0) == 0,
  ForAll([i], Implies(i >= 0, ls(i+1) == If(nl(ls(i)) + 1 < BL, nl(ls(i)) + 1, BL)), patterns=[ls(i)]),
  ForAll([i], Implies(i >= 0, And(0 <= ls(i), ls(i) <= BL)), patterns=[ls(i)]))
# environment contract of binary readline at pos: returns (length of bytes read, new pos)
def readline(pos):
    e = If(nl(pos) + 1 < BL, nl(pos) + 1, BL)
    return If(pos >= BL, 0, e - pos), If(pos >= BL, pos, e)
# loop: self._lines=[0]; while f.readline(): self._lines.append(f.tell())
L = Const('L', AI); Ln, pos, k = Ints('Ln pos k')
inv = lambda L, Ln, pos: And(Ln >= 1, pos == ls(Ln - 1), ForAll([i], Implies(And(0 <= i, i < Ln), L[i] == ls(i)), patterns=[ls(i)]),
                             ForAll([i], Implies(And(0 <= i, i < Ln - 1), ls(i) < BL), patterns=[ls(i)]))
check("loop init", env, inv(Store(L, 0, 0), IntVal(1), IntVal(0)))
rl, pos1 = readline(pos)
check("loop preserve", And(env, inv(L, Ln, pos), rl != 0), inv(Store(L, Ln, pos1), Ln + 1, pos1))
check("loop variant (BL - pos decreases)", And(env, inv(L, Ln, pos), rl != 0), And(pos1 > pos, pos1 <= BL))
# exit: readline() empty ; del self._lines[-1]  -> len = Ln-1 =: m ; post: all offsets are line starts < BL and ls(m) == BL  (m == nlines)
m = Ln - 1
check("post: nlines", And(env, inv(L, Ln, pos), rl == 0), And(ls(m) == BL, ForAll([i], Implies(And(0 <= i, i < m), And(L[i] == ls(i), ls(i) < BL)))))
# _read_line(n) via binary/mmap handle: seek(L[n]); readline -> bytes [ls(n), e) ; after rstrip of one trailing 10: [ls(n), lend(n))
n = Int('n')
rl2, pos2 = readline(L[n])
check("read_line extent", And(env, inv(L, Ln, pos), rl == 0, 0 <= n, n < m),
      And(rl2 > 0, pos2 == ls(n + 1), ForAll([q], Implies(And(ls(n) <= q, q < nl(ls(n))), B[q] != 10))))
check("GUARD false must fail", And(env, inv(L, Ln, pos), rl == 0, BL == 3), BoolVal(False), 5000)
# mutant: forget `del self._lines[-1]`  -> len Ln, then claim ls(Ln)==BL and all < BL : must fail
check("MUTANT no del EXPECT FAIL", And(env, inv(L, Ln, pos), rl == 0), ForAll([i], Implies(And(0 <= i, i < Ln), ls(i) < BL)), 5000)
