# throwaway: rely/guarantee obligations for the imap completion handshake (flags written by the feeder thread only)
from z3 import *
import time
def check(name, hyps, goal, to=10000):
    sv = Solver(); sv.set("timeout", to); sv.add(hyps); sv.add(Not(goal))
    t=time.time(); r = sv.check(); print(f"{name}: {'PROVED' if r==unsat else r} {time.time()-t:.2f}s")
    if r==sat:
        m=sv.model(); print("    cex:", {str(d): m[d] for d in m.decls()})
    return r
class Sh:  # shared + ghost protocol state
    def __init__(s, tag):
        s.sw = Bool(f'sw_{tag}'); s.dc = Int(f'dc_{tag}'); s.phase = Int(f'phase_{tag}'); s.sent = Int(f'sent_{tag}'); s.stop = Bool(f'stop_{tag}')
N = Int('N')
def J(x): return And(0 <= x.phase, x.phase <= 2, 0 <= x.sent, x.sent <= N, Implies(Not(x.sw), And(x.phase == 2, x.dc == N, x.sent == N)),
                     Implies(x.phase == 1, x.sw), Implies(x.phase == 2, And(Not(x.sw), x.dc == N, x.sent == N)))
def R(a, b):  # what the feeder may do between two consumer observations (reflexive, transitive)
    return And(b.phase >= a.phase, b.sent >= a.sent, Implies(a.phase == 2, And(b.sw == a.sw, b.dc == a.dc, b.sent == a.sent, b.phase == 2)), b.stop == a.stop)
# --- rely-init at Thread.start(): creator's state, phase 0 -----------------------------------------
s0 = Sh('0')
buggy_init = And(s0.phase == 0, s0.sent == 0, N >= 0, Not(s0.sw), s0.dc >= 0, Not(s0.stop))          # pinned tree: flags as left by __init__/previous call
fixed_init = And(s0.phase == 0, s0.sent == 0, N >= 0, s0.sw, s0.dc == 0, Not(s0.stop))               # after planned fix F1
# J has phase-0 clause only through "not sw => phase==2": with sw False at phase 0 it is violated.
check("rely-init (pinned tree) EXPECT FAIL", buggy_init, J(s0))
check("rely-init (after fix F1)", fixed_init, J(s0))
# --- guarantee: each shared write of SendWorkThread.run preserves J and is inside R ------------------
a, b = Sh('a'), Sh('b')
def step(name, guard, upd):
    eqs = [getattr(b, f) == upd.get(f, getattr(a, f)) for f in ('sw', 'dc', 'phase', 'sent', 'stop')]
    check(f"guarantee {name}", And(J(a), guard, *eqs), And(J(b), R(a, b)))
step("run:L191 sw=True (+ghost phase:=1)", And(a.phase == 0, a.sent == 0), {'sw': BoolVal(True), 'phase': IntVal(1)})
step("run:L192 dc=0", And(a.phase == 1, a.sent == 0), {'dc': IntVal(0)})
step("run:L205 put (+ghost sent+=1)", And(a.phase == 1, a.sent < N, a.dc == a.sent), {'sent': a.sent + 1})
step("run:L206 dc+=1", And(a.phase == 1, a.dc == a.sent - 1), {'dc': a.dc + 1})
# natural loop exit: chunking exhausted  <=> sent == N (prophecy definition of N), dc == sent
step("run:L211 sw=False (+ghost phase:=2)", And(a.phase == 1, a.sent == N, a.dc == a.sent), {'sw': BoolVal(False), 'phase': IntVal(2)})
# break on stop_event: only reachable if the consumer set stop while phase==1; consumer guarantee: stop only after it observed phase 2
check("break@L208 unreachable under consumer guarantee", And(J(a), a.phase == 1, Implies(a.stop, a.phase == 2)), Not(a.stop))
# --- consumer: exit of `while self._sending_work or finished_cnt < self._data_cnt` ------------------
o1, o2 = Sh('o1'), Sh('o2'); fin = Int('finished_cnt')
inv_consumer = And(fin >= 0)   # finished_cnt <= sent at all times is proved from Buffer/queue contracts; here: fin <= o1.sent
exit_hyp = And(J(s0), R(s0, o1), J(o1), Not(o1.sw),           # first read: _sending_work False
               R(o1, o2), J(o2), Not(fin < o2.dc),            # later read of _data_cnt
               fin <= o2.sent)
check("consumer exit => finished_cnt == N", And(fixed_init, exit_hyp), fin == N)
# with operands swapped (`finished_cnt < dc or sw`): read dc first, then sw  -> unsound, must FAIL
exit_swapped = And(J(s0), R(s0, o1), J(o1), Not(fin < o1.dc), R(o1, o2), J(o2), Not(o2.sw), fin <= o1.sent, fin >= 0)
check("MUTANT swapped operands EXPECT FAIL", And(fixed_init, exit_swapped), fin == N)
# R reflexive / transitive
c = Sh('c')
check("R reflexive", BoolVal(True), R(a, a)); check("R transitive", And(R(a, b), R(b, c)), R(a, c))
