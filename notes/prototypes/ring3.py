from z3 import *
import time
def check(name, hyps, goal, to=20000):
    sv = Solver(); sv.set("timeout", to); sv.add(hyps); sv.add(Not(goal))
    t=time.time(); r = sv.check(); print(f"{name}: {'PROVED' if r==unsat else r} {time.time()-t:.2f}s")
    return r
A = ArraySort(IntSort(), IntSort())
buf, H = Consts('buf H', A)
c, size, off, hl, e, i = Ints('c size off hl e i')
def slot(off, hl, t): return If(off - hl + t < 0, off - hl + t + c, off - hl + t)
def inv(buf, size, off, H, hl):
    t = Int('t')
    return And(c > 0, hl >= 0, size == If(hl < c, hl, c), 0 <= off, off < c, Implies(size < c, off == size),
               ForAll([t], Implies(And(hl - size <= t, t < hl), buf[slot(off,hl,t)] == H[t]), patterns=[H[t]]))
pre = inv(buf, size, off, H, hl)
buf1 = Store(buf, off, e); off1 = If(off + 1 == c, 0, off + 1); size1 = If(size < c, size + 1, size); H1 = Store(H, hl, e)
check("put preserves inv (t-indexed, pattern H[t])", pre, inv(buf1, size1, off1, H1, hl + 1))
q, r = Ints('q r')
check("getitem", And(pre, 0 <= i, i < size, off - size + i == q*c + r, 0 <= r, r < c), buf[r] == H[hl - size + i])
check("MUTANT put off not wrapped", pre, inv(buf1, size1, off+1, H1, hl + 1), 5000)
