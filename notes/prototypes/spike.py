# THROWAWAY spike: symbolic execution of the REAL CircularBuffer source (parsed from /repo each run) against sidecar contracts.
import ast, sys, time, inspect
from z3 import *
SRC = "/repo/windpyutils/structures/circular_buffer.py"
tree = ast.parse(open(SRC).read())
cls = next(n for n in tree.body if isinstance(n, ast.ClassDef) and n.name == "CircularBuffer")
methods = {f.name: f for f in cls.body if isinstance(f, ast.FunctionDef)}
A = ArraySort(IntSort(), IntSort())
class Raise(Exception):
    def __init__(s, exc, pc): s.exc, s.pc = exc, pc
class State:
    def __init__(s, fields, locs, pc): s.f, s.l, s.pc = dict(fields), dict(locs), list(pc)
    def clone(s): return State(s.f, s.l, s.pc)
cnt = [0]
def fresh(p, sort=IntSort()): cnt[0]+=1; return Const(f"{p}!{cnt[0]}", sort)
def ev(e, st):
    """returns list of (value, state) pairs ; raises encoded by ('raise', name)"""
    if isinstance(e, ast.Constant): return IntVal(e.value) if isinstance(e.value,int) else e.value
    if isinstance(e, ast.Name): return st.l[e.id]
    if isinstance(e, ast.Attribute) and isinstance(e.value, ast.Name) and e.value.id == "self":
        if e.attr == "max_size": return st.f["_buffer.len"]          # @property max_size -> len(self._buffer)  (resolved from source below)
        return st.f[e.attr]
    if isinstance(e, ast.BinOp):
        a, b = ev(e.left, st), ev(e.right, st)
        if isinstance(e.op, ast.Add): return a + b
        if isinstance(e.op, ast.Sub): return a - b
        if isinstance(e.op, ast.Mod):
            q, r = fresh("q"), fresh("r"); st.pc.append(And(a == q*b + r, If(b > 0, And(0 <= r, r < b), And(b < r, r <= 0)))); return r
    if isinstance(e, ast.Compare) and len(e.ops) == 1:
        a, b = ev(e.left, st), ev(e.comparators[0], st); op = e.ops[0]
        return {ast.Lt: a < b, ast.GtE: a >= b, ast.Gt: a > b, ast.LtE: a <= b, ast.Eq: a == b}[type(op)]
    if isinstance(e, ast.BoolOp): vs = [ev(v, st) for v in e.values]; return Or(*vs) if isinstance(e.op, ast.Or) else And(*vs)
    if isinstance(e, ast.Call) and isinstance(e.func, ast.Name) and e.func.id == "len" and isinstance(e.args[0], ast.Name) and e.args[0].id == "self":
        return call("__len__", st, [])
    if isinstance(e, ast.Subscript):  # self._buffer[idx]
        idx = ev(e.slice, st); oblig.append(("index-in-bounds@L%d" % e.lineno, list(st.pc), And(0 <= idx, idx < st.f["_buffer.len"])))
        return st.f["_buffer"][idx]
    raise NotImplementedError(ast.dump(e))
def call(name, st, args):   # tiny pure getter inlining only for __len__ (contract: returns self._size)
    return st.f["_size"]
oblig = []
def run(stmts, st, out):
    """out: list of terminal (kind, value, state)"""
    for k, s in enumerate(stmts):
        if isinstance(s, ast.Expr) and isinstance(s.value, ast.Constant): continue   # docstring dropped
        if isinstance(s, ast.Return): out.append(("ret", ev(s.value, st), st)); return
        if isinstance(s, ast.Raise): out.append(("raise:" + s.exc.func.id, None, st)); return
        if isinstance(s, ast.If):
            c = ev(s.test, st); a = st.clone(); a.pc.append(c); b = st.clone(); b.pc.append(Not(c))
            run(s.body + stmts[k+1:], a, out); run(s.orelse + stmts[k+1:], b, out); return
        if isinstance(s, ast.AugAssign): s = ast.Assign([s.target], ast.BinOp(s.target, s.op, s.value), lineno=s.lineno)
        if isinstance(s, ast.Assign):
            t = s.targets[0]; v = ev(s.value, st)
            if isinstance(t, ast.Attribute): st.f[t.attr] = v
            elif isinstance(t, ast.Subscript):
                idx = ev(t.slice, st); oblig.append(("store-in-bounds@L%d" % s.lineno, list(st.pc), And(0 <= idx, idx < st.f["_buffer.len"])))
                st.f["_buffer"] = Store(st.f["_buffer"], idx, v)
            else: st.l[t.id] = v
            continue
        raise NotImplementedError(ast.dump(s))
    out.append(("end", None, st))
# ---- sidecar contract (would live in /verif/contracts) ----
H = Const("H", A); hl = Int("hl")
def slot(f, t): c = f["_buffer.len"]; return If(f["_offset"] - hl + t < 0, f["_offset"] - hl + t + c, f["_offset"] - hl + t)
def inv(f, H, hl):
    t = Int("t"); c = f["_buffer.len"]
    return And(c > 0, hl >= 0, f["_size"] == If(hl < c, hl, c), 0 <= f["_offset"], f["_offset"] < c, Implies(f["_size"] < c, f["_offset"] == f["_size"]),
               ForAll([t], Implies(And(hl - f["_size"] <= t, t < hl), f["_buffer"][slot(f, t)] == H[t]), patterns=[H[t]]))
def prove(name, hyps, goal):
    s = Solver(); s.set("timeout", 10000); s.add(*hyps); s.add(Not(goal)); t0 = time.time(); r = s.check()
    print(f"  {name:45s} {'discharged' if r == unsat else 'FAILED:'+str(r)}  {1000*(time.time()-t0):.0f}ms"); return r
f0 = {"_buffer": Const("buf", A), "_buffer.len": Int("c"), "_size": Int("size"), "_offset": Int("off")}
print("CircularBuffer.put")
e = Int("e"); out = []; oblig.clear(); run(methods["put"].body, State(f0, {"e": e}, [inv(f0, H, hl)]), out)
for kind, v, st in out:
    H1 = Store(H, hl, e); hl1 = hl + 1
    # post: invariant w.r.t. history extended by e (ghost update), must hold on every path
    global_hl = hl
    def inv1(f):
        t = Int("t"); c = f["_buffer.len"]
        sl = lambda t: If(f["_offset"] - hl1 + t < 0, f["_offset"] - hl1 + t + c, f["_offset"] - hl1 + t)
        return And(f["_size"] == If(hl1 < c, hl1, c), 0 <= f["_offset"], f["_offset"] < c, Implies(f["_size"] < c, f["_offset"] == f["_size"]),
                   ForAll([t], Implies(And(hl1 - f["_size"] <= t, t < hl1), f["_buffer"][sl(t)] == H1[t]), patterns=[H1[t]]))
    prove(f"post:invariant[{kind}]", st.pc, inv1(st.f))
for n, pc, g in oblig: prove(n, pc, g)
print("CircularBuffer.__getitem__")
i = Int("offset"); out = []; oblig.clear(); run(methods["__getitem__"].body, State(f0, {"offset": i}, [inv(f0, H, hl)]), out)
for kind, v, st in out:
    if kind == "ret": prove("post:result==H[hl-size+offset]", st.pc, And(0 <= i, i < f0["_size"], v == H[hl - f0["_size"] + i]))
    else: prove(f"post:{kind} iff out of range", st.pc, Or(i < 0, i >= f0["_size"]))
for n, pc, g in oblig: prove(n, pc, g)
