# throwaway: can z3 discharge DLL move_to_front VCs (heap arrays + ghost index sequence)?
from z3 import *
import time
Ref = IntSort(); NULL = IntVal(0)
def wf(nxt, prv, head, tail, size, s, n, pos):
    i, j = Ints('i j')
    return And(n >= 0, size == n,
        Implies(n == 0, And(head == NULL, tail == NULL)),
        Implies(n > 0, And(head == s[0], tail == s[n-1], prv[s[0]] == NULL, nxt[s[n-1]] == NULL)),
        ForAll([i], Implies(And(0 <= i, i < n), And(s[i] != NULL, pos[s[i]] == i))),
        ForAll([i], Implies(And(0 <= i, i < n-1), And(nxt[s[i]] == s[i+1], prv[s[i+1]] == s[i]))))
A = ArraySort(IntSort(), IntSort())
nxt, prv, s, pos = Consts('nxt prv s pos', A)
head, tail, size, n, node, k = Ints('head tail size n node k')
pre = And(wf(nxt, prv, head, tail, size, s, n, pos), 0 <= k, k < n, s[k] == node)
# --- symbolic execution of remove(node) (real code semantics) ---
def sym_remove(nxt, prv, head, tail, size, node):
    p = prv[node]; nx = nxt[node]
    nxt1 = If(p != NULL, Store(nxt, p, nx), nxt); head1 = If(p != NULL, head, nx)
    prv1 = If(nx != NULL, Store(prv, nx, p), prv); tail1 = If(nx != NULL, tail, p)
    return nxt1, prv1, head1, tail1, size - 1
# remove postcondition: wf with s' = s without index k
def seq_del(s, k):
    i = Int('i'); s2 = Array('s_del', IntSort(), IntSort())
    return s2, ForAll([i], s2[i] == If(i < k, s[i], s[i+1]))
nxt1, prv1, head1, tail1, size1 = sym_remove(nxt, prv, head, tail, size, node)
s2, s2def = seq_del(s, k)
pos2 = Array('pos2', IntSort(), IntSort()); i = Int('i')
pos2def = ForAll([i], pos2[i] == If(pos[i] > k, pos[i]-1, pos[i]))
def check(name, hyps, goal, to=20000):
    sv = Solver(); sv.set("timeout", to); sv.add(hyps); sv.add(Not(goal))
    t=time.time(); r = sv.check(); print(f"{name}: {'PROVED' if r==unsat else r} {time.time()-t:.2f}s")
    return r
check("remove keeps wf", And(pre, s2def, pos2def), wf(nxt1, prv1, head1, tail1, size1, s2, n-1, pos2))
# buggy variant sanity: forgetting tail update should fail
tail_bug = tail
r = check("remove BUG(no tail update) must fail", And(pre, s2def, pos2def), wf(nxt1, prv1, head1, tail_bug, size1, s2, n-1, pos2))
# --- move_to_front real code: guard head None -> raise; node.prev None -> return; remove; head.prev=node; node.prev=None; node.next=head; head=node
# case node.prev != NULL (k>0)
h = head1
prv2 = Store(prv1, h, node)            # self.head.prev_node = node
prv3 = Store(prv2, node, NULL)         # node.prev_node = None
nxt2 = Store(nxt1, node, h)            # node.next_node = self.head
head2 = node
s3 = Array('s_mtf', IntSort(), IntSort()); s3def = ForAll([i], s3[i] == If(i == 0, node, If(i <= k, s[i-1], s[i])))
pos3 = Array('pos3', IntSort(), IntSort()); pos3def = ForAll([i], pos3[i] == If(i == node, 0, If(pos[i] < k, pos[i]+1, pos[i])))
# expected by property: len == n (size unchanged)
check("move_to_front links (ignoring size)", And(pre, prv[node] != NULL, s3def, pos3def), wf(nxt2, prv3, head2, tail1, IntVal(0)+n, s3, n, pos3))
check("move_to_front with REAL size (expected to FAIL: size bug)", And(pre, prv[node] != NULL, s3def, pos3def), wf(nxt2, prv3, head2, tail1, size1, s3, n, pos3))
