# SpanSet.__init__ inner/outer loops with uninterpreted relation; spec function D(i) = dedup of first i spans
from z3 import *
import time
def check(name, hyps, goal, to=20000):
    sv = Solver(); sv.set("timeout", to); sv.add(hyps); sv.add(Not(goal))
    t=time.time(); r = sv.check(); print(f"{name}: {'PROVED' if r==unsat else r} {time.time()-t:.2f}s")
    return r
V = DeclareSort('V')
rel = Function('rel', V, V, V, V, BoolSort())
AV = ArraySort(IntSort(), V)
S, E = Consts('S E', AV); n = Int('n')      # input spans
# spec: klen(i) = number kept among first i ; KS(i,j),KE(i,j): j-th kept span after i inputs; kept(i) <=> input i is kept
klen = Function('klen', IntSort(), IntSort()); keptS = Function('keptS', IntSort(), V); keptE = Function('keptE', IntSort(), V)
dup = Function('dup', IntSort(), BoolSort())     # dup(i): input i related to some kept span among first i
i, j = Ints('i j')
wit = Function('wit', IntSort(), IntSort())      # skolem witness for dup(i)
spec = And(klen(0) == 0,
    ForAll([i], Implies(And(0 <= i, i < n), klen(i+1) == If(dup(i), klen(i), klen(i)+1)), patterns=[klen(i)]),
    ForAll([i], Implies(And(0 <= i, i < n, Not(dup(i))), And(keptS(klen(i)) == S[i], keptE(klen(i)) == E[i])), patterns=[dup(i)]),
    ForAll([i], Implies(And(0 <= i, i < n, dup(i)), And(0 <= wit(i), wit(i) < klen(i), rel(S[i], E[i], keptS(wit(i)), keptE(wit(i))))), patterns=[dup(i)]),
    ForAll([i, j], Implies(And(0 <= i, i < n, 0 <= j, j < klen(i), rel(S[i], E[i], keptS(j), keptE(j))), dup(i)), patterns=[MultiPattern(dup(i), keptS(j))]),
    ForAll([i], Implies(And(0<=i, i<=n), And(0 <= klen(i), klen(i) <= i)), patterns=[klen(i)]))
# code state: self.starts/ends as (len m, arrays ST, EN); outer loop index k; outer invariant: m == klen(k) and forall j<m: ST[j]==keptS(j)...
ST, EN = Consts('ST EN', AV); m, k = Ints('m k')
outer_inv = lambda ST, EN, m, k: And(0 <= k, k <= n, m == klen(k), ForAll([j], Implies(And(0 <= j, j < m), And(ST[j] == keptS(j), EN[j] == keptE(j))), patterns=[ST[j]]))
# inner loop: for idx in range(m): if rel(s, e, ST[idx], EN[idx]): not_in=False; break
# inner invariant at idx: not_in == True and forall j<idx: not rel(S[k],E[k],ST[j],EN[j])
idx = Int('idx')
inner_inv = lambda idx: And(0 <= idx, idx <= m, ForAll([j], Implies(And(0 <= j, j < idx), Not(rel(S[k], E[k], ST[j], EN[j]))), patterns=[ST[j]]))
base = And(spec, outer_inv(ST, EN, m, k), k < n)
check("inner inv init", base, inner_inv(IntVal(0)))
check("inner inv step", And(base, inner_inv(idx), idx < m, Not(rel(S[k], E[k], ST[idx], EN[idx]))), inner_inv(idx + 1))
# exit via break: found at idx -> dup(k) ; list unchanged ; outer inv at k+1
check("outer step (break: duplicate)", And(base, inner_inv(idx), idx < m, rel(S[k], E[k], ST[idx], EN[idx])), outer_inv(ST, EN, m, k + 1))
# exit normally: idx == m -> not dup(k); append
ST1 = Store(ST, m, S[k]); EN1 = Store(EN, m, E[k])
check("outer step (append)", And(base, inner_inv(idx), idx == m), outer_inv(ST1, EN1, m + 1, k + 1))
# mutant: `continue` instead of append when not related to LAST only  (break omitted etc.) - here: append even if dup
check("MUTANT outer step (always append)", And(base, inner_inv(idx), idx < m, rel(S[k], E[k], ST[idx], EN[idx])), outer_inv(ST1, EN1, m + 1, k + 1), 5000)
