from z3 import *
import time
def check(name, hyps, goal, to=20000):
    sv = Solver(); sv.set("timeout", to); sv.add(hyps); sv.add(Not(goal))
    t=time.time(); r = sv.check(); print(f"{name}: {'PROVED' if r==unsat else r} {time.time()-t:.2f}s"); return r
AR = ArraySort(IntSort(), RealSort()); AI = ArraySort(IntSort(), IntSort())
st, en, sE = Consts('starts ends sortedEnds', AR); sI = Const('sortedIdx', AI); n = Int('n'); key = Real('key')
i, j = Ints('i j')
# class invariant established by __init__ (each clause is a post of the constructor):
inv = And(n >= 0,
  ForAll([i], Implies(And(0 <= i, i < n), st[i] <= en[i]), patterns=[st[i]]),
  ForAll([i, j], Implies(And(0 <= i, i < j, j < n), Or(en[i] < st[j], en[j] < st[i])), patterns=[MultiPattern(st[i], st[j])]),     # pairwise no shared point
  ForAll([i], Implies(And(0 <= i, i < n), And(0 <= sI[i], sI[i] < n, sE[i] == en[sI[i]])), patterns=[sI[i]]),
  ForAll([i, j], Implies(And(0 <= i, i < j, j < n), sI[i] != sI[j]), patterns=[MultiPattern(sI[i], sI[j])]),
  ForAll([i], Implies(And(0 <= i, i < n - 1), sE[i] <= sE[i+1]), patterns=[sE[i]]))
# sorted => monotone (lemma needed: adjacent sortedness to global) : provide as hint lemma proven separately by induction; here assume global form
glob = ForAll([i, j], Implies(And(0 <= i, i <= j, j < n), sE[i] <= sE[j]), patterns=[MultiPattern(sE[i], sE[j])])
# surjectivity of the permutation: every original index has a position (ghost inverse)
inv_perm = Function('posOf', IntSort(), IntSort())
surj = ForAll([i], Implies(And(0 <= i, i < n), And(0 <= inv_perm(i), inv_perm(i) < n, sI[inv_perm(i)] == i)), patterns=[en[i]])
# bisect_left contract on sortedEnds
r = Int('r')
bis = And(0 <= r, r <= n, ForAll([i], Implies(And(0 <= i, i < r), sE[i] < key), patterns=[sE[i]]), ForAll([i], Implies(And(r <= i, i < n), sE[i] >= key), patterns=[sE[i]]))
H = And(inv, glob, surj, bis)
m = Int('m')   # arbitrary interval index: "contains key"
contains = lambda t: And(0 <= t, t < n, st[t] <= key, key <= en[t])
# path 1: r == n -> KeyError ; must be: no interval contains key
check("KeyError@r==n iff none contains", And(H, r == n), Not(contains(m)))
idx = sI[r]
# path 2: key < start[idx] -> KeyError
check("KeyError@key<start: none contains", And(H, r < n, key < st[idx]), Not(contains(m)))
# path 3: return values[idx]: idx contains key and is the unique one
check("return: idx contains key", And(H, r < n, Not(key < st[idx])), contains(idx))
check("return: unique", And(H, r < n, Not(key < st[idx]), contains(m)), m == idx)
check("GUARD false must fail", And(H, r < n, n == 2), BoolVal(False), 5000)
# mutant: `key <= interval_start` instead of `<`
check("MUTANT <=: KeyError path wrongly taken EXPECT FAIL", And(H, r < n, key <= st[idx]), Not(contains(m)), 5000)
