# throwaway: LRUCache.__setitem__ eviction path, callee (move_to_front) used BY CONTRACT, dict<->list coupling invariant
from z3 import *
import time
def check(name, hyps, goal, to=30000):
    sv = Solver(); sv.set("timeout", to); sv.add(hyps); sv.add(Not(goal))
    t=time.time(); r = sv.check(); print(f"{name}: {'PROVED' if r==unsat else r} {time.time()-t:.2f}s"); return r
K = DeclareSort('K'); Vv = DeclareSort('V')
I = IntSort(); NULL = IntVal(0)
AI = ArraySort(I, I)
def wf(nxt, prv, head, tail, s, n, pos):
    i = Int('i')
    return And(n >= 0,
        Implies(n == 0, And(head == NULL, tail == NULL)),
        Implies(n > 0, And(head == s[0], tail == s[n-1], prv[s[0]] == NULL, nxt[s[n-1]] == NULL)),
        ForAll([i], Implies(And(0 <= i, i < n), And(s[i] != NULL, pos[s[i]] == i)), patterns=[s[i]]),
        ForAll([i], Implies(And(0 <= i, i < n-1), And(nxt[s[i]] == s[i+1], prv[s[i+1]] == s[i])), patterns=[s[i]]))
dkey = Array('dkey', I, K); dval = Array('dval', I, Vv)       # node.data = (key, value)
dom = Array('dom', K, BoolSort()); cache = Array('cache', K, I); clen = Int('clen')
nxt, prv, s, pos = Consts('nxt prv s pos', AI); head, tail, n, maxsize = Ints('head tail n maxsize')
def coupling(dom, cache, clen, dkey, s, n, pos):
    k = Const('k', K); i = Int('i')
    return And(clen == n,
        ForAll([k], Implies(dom[k], And(0 <= pos[cache[k]], pos[cache[k]] < n, s[pos[cache[k]]] == cache[k], dkey[cache[k]] == k)), patterns=[cache[k]]),
        ForAll([i], Implies(And(0 <= i, i < n), And(dom[dkey[s[i]]], cache[dkey[s[i]]] == s[i])), patterns=[s[i]]))
pre = And(wf(nxt, prv, head, tail, s, n, pos), coupling(dom, cache, clen, dkey, s, n, pos), maxsize >= 1, n <= maxsize)
k0 = Const('k0', K); v0 = Const('v0', Vv)
# path: k0 not in cache, len(cache) >= max_size  (so n >= 1)
path = And(Not(dom[k0]), clen >= maxsize)
node = tail
old_key = dkey[node]
dom1 = Store(dom, old_key, False); clen1 = clen - 1          # del self.cache[node.data[0]]   (key present -> len-1) : obligation: present
check("del: key present (no KeyError)", And(pre, path), dom[old_key])
dkey1 = Store(dkey, node, k0); dval1 = Store(dval, node, v0) # node.data = (k, v)
# move_to_front(node) by CONTRACT: requires wf & node in s at index p ; ensures wf(s2) with s2 = [node] + s[:p] + s[p+1:], frame: only nxt, prv, head, tail
p = pos[node]
check("pre@call move_to_front: node in list", And(pre, path), And(0 <= p, p < n, s[p] == node))
nxt2, prv2, s2, pos2 = Consts('nxt2 prv2 s2 pos2', AI); head2, tail2 = Ints('head2 tail2'); i = Int('i')
callee_post = And(wf(nxt2, prv2, head2, tail2, s2, n, pos2),
    ForAll([i], s2[i] == If(i == 0, node, If(i <= p, s[i-1], s[i])), patterns=[s2[i]]),
    ForAll([i], pos2[i] == If(i == node, 0, If(And(0 <= pos[i], pos[i] < p, s[pos[i]] == i), pos[i]+1, pos[i])), patterns=[pos2[i]]))
# self.cache[k] = node   (new key -> len+1)
dom2 = Store(dom1, k0, True); cache2 = Store(cache, k0, node); clen2 = clen1 + 1
post_coupling = coupling(dom2, cache2, clen2, dkey1, s2, n, pos2)
check("post: coupling invariant after eviction", And(pre, path, callee_post), post_coupling)
# abstract view post: M' = [(k0,v0)] + M[:-1]  i.e. keys/values along s2
j = Int('j')
check("post: view == [(k,v)] + old[:-1]", And(pre, path, callee_post),
      And(dkey1[s2[0]] == k0, dval1[s2[0]] == v0,
          ForAll([j], Implies(And(1 <= j, j < n), And(dkey1[s2[j]] == dkey[s[j-1]], dval1[s2[j]] == dval[s[j-1]])))))
check("post: size bound", And(pre, path, callee_post), clen2 <= maxsize)
# mutant: evict head instead of tail -> view post must fail
print("--- vacuity guards ---")
check("GUARD assert False must FAIL", And(pre, path, callee_post), BoolVal(False), 15000)
# bounded consistency: n == 2 concrete shape
sv = Solver(); sv.set("timeout", 15000); sv.add(pre, path, callee_post, n == 2, maxsize == 2); print("bounded sat (n=2):", sv.check())
# mutant: evict head instead of tail: node = head
node_m = head; pm = pos[node_m]
dom1m = Store(dom, dkey[node_m], False); dkey1m = Store(dkey, node_m, k0); dval1m = Store(dval, node_m, v0)
callee_post_m = And(wf(nxt2, prv2, head2, tail2, s2, n, pos2),
    ForAll([i], s2[i] == If(i == 0, node_m, If(i <= pm, s[i-1], s[i])), patterns=[s2[i]]))
check("MUTANT evict head: view post must FAIL", And(pre, path, callee_post_m, n >= 2),
      And(dkey1m[s2[0]] == k0, ForAll([j], Implies(And(1 <= j, j < n), dkey1m[s2[j]] == dkey[s[j-1]]))), 15000)
