# counterexample search by bounded instantiation: expand every quantifier over a small index window, then ask for a model
from z3 import *
import time
def expand(f, lo, hi):
    """recursively replace ForAll/Exists over Int variables by finite conjunction/disjunction over [lo,hi]"""
    if is_quantifier(f):
        nv = f.num_vars(); body = f.body()
        assert all(f.var_sort(i) == IntSort() for i in range(nv))
        import itertools
        outs = []
        for vals in itertools.product(range(lo, hi + 1), repeat=nv):
            # de Bruijn: var index 0 is the LAST bound variable
            subst = [IntVal(v) for v in reversed(vals)]
            outs.append(expand(substitute_vars(body, *subst), lo, hi))
        return And(*outs) if f.is_forall() else Or(*outs)
    if is_app(f) and f.num_args() > 0 and f.sort() == BoolSort():
        return f.decl()(*[expand(a, lo, hi) if a.sort() == BoolSort() else a for a in f.children()])
    return f
exec(open(__import__("os").path.dirname(__file__)+"/seqgen.py").read().split("# ---------------- search_sub_seq loop")[0].replace('check("', 'None and check("'))
hyp = And(*V.ax, sorted_strict(V), bisR, Not(alreadyR), *V4.ax)
goal = sorted_strict(V4)
N = 3
s = Solver(); s.set("timeout", 20000)
s.add(expand(hyp, -1, N + 1), Not(expand(goal, -1, N + 1)), V.n <= N)
t = time.time(); r = s.check(); print("bounded instantiation, len<=3:", r, f"{time.time()-t:.2f}s")
if r == sat:
    m = s.model(); n = m.eval(V.n).as_long()
    print("  values =", [m.eval(V.a[i]) for i in range(n)], " x =", m.eval(x), " r2 =", m.eval(r2), " -> after insert:", [m.eval(V4.a[i]) for i in range(n + 1)])
# the GUARD: hypotheses of the unmutated VC must be satisfiable
hyp2 = And(pre, Not(already), *V2.ax)
s = Solver(); s.add(expand(hyp2, -1, N + 1), V.n == 2); print("GUARD (hyps satisfiable, bounded):", s.check())
