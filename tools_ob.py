#!/opt/veriftools/pyvenv/bin/python
"""developer helper: one obligation under the microscope.
usage: tools_ob.py <unit-loader> <Class|-> <function> <concrete|-> <obligation-substring> [--goal] [--hyps] [--min]
--min: greedy search for a small set of hypotheses that still proves the goal (each try 2 s)"""
import os, sys, time
if os.environ.get("PYTHONHASHSEED") != "0":
    os.environ["PYTHONHASHSEED"] = "0"
    os.execv(sys.executable, [sys.executable] + sys.argv)
HERE = os.path.dirname(os.path.abspath(__file__))
sys.path.insert(0, HERE); os.chdir(HERE)
os.environ.setdefault("PYVC_REPO", "/repo")
import importlib, z3
from pyvc import solve
name, cls, fn, conc, sub = sys.argv[1:6]
modname, _, f = name.partition(":")
unit = getattr(importlib.import_module(modname), f or "unit")()
res, obs = solve.generate_target(unit, None if cls == "-" else cls, fn, None if conc == "-" else conc)
print(res["status"], res["detail"][:300])
for ob in obs:
    if sub not in ob.name:
        continue
    print("==", ob.name, "hyps:", len(ob.hyps))
    if "--goal" in sys.argv:
        print(ob.goal)
    if "--hyps" in sys.argv:
        for i, h in enumerate(ob.hyps):
            print("  [%d]" % i, str(h)[:400].replace("\n", " "))
    def prove(hyps, t=2000, seed=0):
        s = z3.Solver(); s.set("timeout", t); s.set("random_seed", seed)
        s.add(*hyps); s.add(z3.Not(ob.goal))
        t0 = time.time(); r = s.check()
        return r, time.time() - t0
    for seed in (0, 7):
        print("   all hyps seed", seed, prove(ob.hyps, 5000, seed))
    if "--min" in sys.argv:
        hy = list(ob.hyps)
        r, _ = prove(hy, 10000)
        if r != z3.unsat:
            # try dropping each single hypothesis
            for i in range(len(hy)):
                r, dt = prove(hy[:i] + hy[i + 1:], 2000)
                if r == z3.unsat:
                    print("   proved without hyp", i, "%.2fs" % dt, str(hy[i])[:200].replace("\n", " "))
        else:
            i = 0
            while i < len(hy):
                r, dt = prove(hy[:i] + hy[i + 1:], 2000)
                if r == z3.unsat:
                    hy.pop(i)
                else:
                    i += 1
            print("   minimal core (%d):" % len(hy))
            for h in hy:
                print("     ", str(h)[:600].replace("\n", " "))
