#!/usr/bin/env python3
"""Runs ./check for every filed seeded change of the given properties (default: all claimed) in its scratch worktree and
writes /verif/seeded/RESULTS.json: which check outcome each seed gets (expected: exit 1 with a VIOLATION line)."""
import json, os, subprocess, sys, glob, time
sys.path.insert(0, "/verif")
from contracts import registry
props = sys.argv[1:] or sorted(registry.PROPS)
out_path = "/verif/seeded/RESULTS.json"
res = json.load(open(out_path)) if os.path.exists(out_path) else {}
head = subprocess.check_output(["git", "-C", "/repo", "rev-parse", "HEAD"]).decode().strip()
for d in sorted(glob.glob("/verif/seeded/C*-*")):
    sid = os.path.basename(d); pid = sid.split("-")[0]
    if pid not in props or pid not in registry.PROPS:
        continue
    wt = "/tmp/seed/" + pid
    if not os.path.isdir(wt):       # scratch worktree outside /repo and /verif (remove with: git -C /repo worktree remove --force <dir>)
        os.makedirs("/tmp/seed", exist_ok=True)
        subprocess.run(["git", "-C", "/repo", "worktree", "add", "--detach", wt, head, "-q"], check=True)
    subprocess.run(["git", "-C", wt, "checkout", "-q", "--", "."]); subprocess.run(["git", "-C", wt, "checkout", "-q", "--detach", head])
    ap = subprocess.run(["git", "-C", wt, "apply", os.path.join(d, "patch.diff")], capture_output=True, text=True)
    if ap.returncode != 0:
        res[sid] = {"outcome": "patch-does-not-apply"}; continue
    t0 = time.time()
    p = subprocess.run(["./check", pid], cwd="/verif", env=dict(os.environ, PYVC_REPO=wt), capture_output=True, text=True)
    subprocess.run(["git", "-C", wt, "checkout", "-q", "--", "."])
    lines = p.stdout.strip().splitlines()
    viol = [l for l in lines if l.startswith("VIOLATION")]
    res[sid] = {"exit": p.returncode, "wall_s": round(time.time() - t0), "summary": lines[0] if lines else "",
                "violations": [l[:400] for l in viol[:4]], "undecided": len([l for l in lines if l.startswith("UNDECIDED")]),
                "deductive_violation": any("no-failing-input-found" in l or ("/bounded/" not in l) for l in viol),
                "bounded_violation": any("/bounded/" in l for l in viol)}
    print(sid, res[sid]["exit"], "L1" if res[sid]["deductive_violation"] else "-", "L2" if res[sid]["bounded_violation"] else "-", res[sid]["wall_s"], flush=True)
    json.dump(res, open(out_path, "w"), indent=1)
